"""C38 Compacted active-DOF solve is equivalent."""
from __future__ import annotations
import numpy as np
from .common import Acc, intercept, result, search_result

ID = "C38"
LEAN_MODULES = ["MjwVerif.Props.C38"]
GEN_FUNCS = ["island._reset_compact_maps", "island._compact_dofs"]
KERNELS = ["island._reset_compact_maps", "island._compact_dofs"]
LEVEL_TEXT = ("Theorems about the compaction kernels regenerated from island.py/solver.py on every run, for all sizes and task orders: the generated kernels equal a hand-written model; with "
              "count <= nvmax the maps dof_cdof/cdof_dof are mutually inverse between awake dofs and [0,ncdof), -1 elsewhere (incl. the padded tail), order inside a tree preserved; the NVMAX bit is "
              "set iff count > nvmax (exact fit grants everything, ncdof = min(count,nvmax)); gather followed by scatter restores qacc on active dofs and writes exactly 0 on frozen ones. "
              "The theorems take the launch grid of _reset_compact_maps, (nworld, max(nv, nvmax_pad)), as a hypothesis that is discharged at host level by reset_compact_maps_grid (launch-dimension side table of the regenerated Gen/Host.lean: every launch of that kernel in step() uses exactly this grid); that the host really "
              "rebuilds the maps from tree_awake alone on a Data with history is sampled: forests of 4-6 independent trees (nv 20-36, dense and sparse, both cones, 1-2 worlds with different "
              "awake sets), ONE Data per case driven through a sequence of awake sets (highest tree, nothing, lowest tree, random subsets, every tree), DOF capacity in rotation "
              "(nvmax_pad = 16 < nv / default / some sets overflow); after every forward() dof_cdof, cdof_dof, ncdof equal a NumPy transcription, the NVMAX bit is set iff count > nvmax, frozen "
              "dofs have exactly zero qacc/qacc_smooth/qfrc_constraint, and the awake trees' qacc/qacc_smooth/qfrc_constraint equal MuJoCo's full (sleep-disabled) solve; the same checks on a "
              "leg driven only through qfrc_applied/forward/step (wake, fall asleep, wake another tree). "
              "That a dense solve on the compacted problem equals the full solve when every tree is awake is sampled (sleep-enabled vs sleep-disabled forward()).")
LEVEL_NOTE = ("C38_partial: numerical equality of the compact Newton solve with the full solve, and the launch grid of _compact_dofs (hypothesis IsGrid1; the grid of _reset_compact_maps is pinned by reset_compact_maps_grid) are "
              "sampled, incl. repeated calls on one Data with a changing awake set and nvmax_pad < nv. Trusted: Lean kernel, tier-B translator (interception).")
ASSUMPTIONS = ["tree dof ranges are disjoint (MuJoCo compiler invariant)"]

XML = """
<mujoco>
  <option timestep="0.005" {cone}>{flag}</option>
  <worldbody>
    <geom type="plane" size="5 5 .1"/>
    <body pos="0 0 .1"><freejoint/><geom type="sphere" size=".1"/></body>
    <body pos=".5 0 .3"><freejoint/><geom type="box" size=".1 .1 .1"/><body pos=".3 0 0"><joint type="hinge" axis="0 1 0"/><geom type="capsule" size=".04 .1"/></body></body>
    <body pos="-.6 0 .5"><joint type="slide" axis="0 0 1"/><geom size=".05"/></body>
  </worldbody>
</mujoco>
"""


# ---------------------------------------------------------------------------------------------------------------------
# history leg: ONE Data, the awake set changes from call to call (all kinds of subsets, per world), DOF capacity in rotation
# ---------------------------------------------------------------------------------------------------------------------
KINDS = {"free_hinge": 7, "chain3": 3, "slide_hinge": 2, "ball_hinge": 4, "free": 6}
MODES = ("small", "default", "mid", "small2")   # rotation of the DOF capacity, see RULE


def _tree_xml(t, kind, mass, fl):
  def h(n, ax):
    return f'<joint name="{n}" type="hinge" axis="{ax}" frictionloss="{fl:.3f}" range="-1 1" limited="true"/>'
  pos = f"{1.5 * t} 0 0"
  if kind == "free_hinge":
    return (f'<body pos="{pos}"><freejoint/><geom type="box" size=".2 .1 .1" mass="{mass}"/><body pos=".3 0 0">{h(f"h{t}", "0 1 0")}'
            f'<geom type="capsule" size=".05" fromto="0 0 0 .3 0 0" mass="{0.5 * mass}"/></body></body>')
  if kind == "free":
    return f'<body pos="{pos}"><freejoint/><geom type="box" size=".2 .1 .15" mass="{mass}"/></body>'
  if kind == "chain3":
    return (f'<body pos="{pos}">{h(f"a{t}", "0 1 0")}<geom type="capsule" size=".05" fromto="0 0 0 .3 0 0" mass="{mass}"/>'
            f'<body pos=".3 0 0">{h(f"b{t}", "1 0 0")}<geom type="capsule" size=".05" fromto="0 0 0 0 .3 0" mass="{0.7 * mass}"/>'
            f'<body pos="0 .3 0">{h(f"c{t}", "0 0 1")}<geom type="capsule" size=".04" fromto="0 0 0 .2 0 .1" mass="{0.4 * mass}"/></body></body></body>')
  if kind == "slide_hinge":
    return (f'<body pos="{pos}"><joint type="slide" axis="0 0 1" frictionloss="{fl:.3f}"/><geom size=".08" mass="{mass}"/>'
            f'<body pos="0 0 .2">{h(f"s{t}", "0 1 0")}<geom type="capsule" size=".04" fromto="0 0 0 .2 0 0" mass="{0.5 * mass}"/></body></body>')
  return (f'<body pos="{pos}"><joint type="ball"/><geom type="capsule" size=".05" fromto="0 0 0 .3 0 0" mass="{mass}"/>'
          f'<body pos=".3 0 0">{h(f"k{t}", "0 1 0")}<geom type="capsule" size=".04" fromto="0 0 0 0 0 .2" mass="{0.5 * mass}"/></body></body>')


def _forest(rng, sparse, cone, grav):
  """4-6 independent trees (no contact, no cross-tree constraint), 20 <= nv <= 36, frictionloss + limit rows in every tree"""
  names = list(KINDS)
  while True:
    kinds = [names[int(rng.integers(len(names)))] for _ in range(int(rng.integers(4, 7)))]
    if 20 <= sum(KINDS[k] for k in kinds) <= 36:
      break
  masses = [round(float(rng.uniform(0.5, 3.0)), 2) for _ in kinds]
  fls = [float(rng.uniform(0.05, 0.4)) for _ in kinds]
  bodies = "".join(_tree_xml(t, k, masses[t], fls[t]) for t, k in enumerate(kinds))

  def xml(sleep):
    flag = 'sleep="enable" ' if sleep else ""
    jac = "sparse" if sparse else "dense"
    return (f'<mujoco><compiler angle="radian"/><option gravity="0 0 {grav}" solver="Newton" {cone} jacobian="{jac}" tolerance="1e-10" iterations="50">'
            f'<flag {flag}contact="disable"/></option><worldbody>{bodies}</worldbody></mujoco>')
  return kinds, xml(True), xml(False)


def _rand_qpos(mjm, rng):
  q = mjm.qpos0.copy()
  for j in range(mjm.njnt):
    a = mjm.jnt_qposadr[j]
    ty = int(mjm.jnt_type[j])
    if ty == 3:
      q[a] = rng.normal() * 0.8          # limit range is [-1, 1]: violated now and then -> active limit rows
    elif ty == 2:
      q[a] = rng.normal() * 0.1
    elif ty == 1:
      v = rng.normal(size=4)
      q[a:a + 4] = v / np.linalg.norm(v)
    else:
      q[a:a + 3] += rng.normal(size=3) * 0.05
      v = rng.normal(size=4)
      q[a + 3:a + 7] = v / np.linalg.norm(v)
  return q


def _ref_maps(awake, adr, num, nv, nvmax, nvp):
  """NumPy transcription of the SPECIFIED result of update_active_dofs (maps rebuilt from tree_awake alone, -1 elsewhere)"""
  dc, cd, c = -np.ones(nv, int), -np.ones(nvp, int), 0
  for t in range(len(adr)):
    if awake[t] == 1:
      for j in range(int(num[t])):
        if c < nvmax:
          dc[adr[t] + j], cd[c] = c, adr[t] + j
        c += 1
  return dc, cd, min(c, nvmax), c


def _check_call(acc, mujoco, d, mn, mref, qpos, qv, qf, ta, adr, num, cap, replay):
  """after ONE forward() on Data d whose awake sets are ta (nworld x ntree): maps vs transcription, NVMAX bit iff count > capacity,
  frozen dofs exactly zero, awake dofs vs MuJoCo's full (sleep-disabled) solve on the same state"""
  nworld, nt = ta.shape
  nv, nvp = mn.nv, d.nvmax_pad
  dc, cd, nc, ov = d.dof_cdof.numpy(), d.cdof_dof.numpy(), d.ncdof.numpy(), d.overflow.numpy()
  out = {"qacc": d.qacc.numpy(), "qacc_smooth": d.qacc_smooth.numpy(), "qfrc_constraint": d.qfrc_constraint.numpy()}
  nefc = d.nefc.numpy()
  for w in range(nworld):
    acc.evals += 1
    rdc, rcd, rnc, cnt = _ref_maps(ta[w], adr, num, nv, cap, nvp)
    over = cnt > cap
    acc.hit("hist:overflow" if over else "hist:fit")
    if cnt == cap:
      acc.hit("hist:exact-fit")
    if cnt == 0:
      acc.hit("hist:nothing-awake")
    if cnt == nv:
      acc.hit("hist:all-awake")
    if not ((dc[w] == rdc).all() and (cd[w] == rcd).all() and int(nc[w]) == rnc):
      bad = np.nonzero(dc[w] != rdc)[0].tolist()
      acc.find(f"dof_cdof/cdof_dof/ncdof after forward() differ from the maps rebuilt from tree_awake (dof_cdof wrong at dofs {bad[:8]}, "
               f"ncdof {int(nc[w])} vs {rnc}; nv={nv}, nvmax_pad={nvp})", "island.update_active_dofs", "compact-maps-vs-reference",
               world=w, dof_cdof=dc[w].tolist(), expected=rdc.tolist(), **replay)
    if bool(int(ov[w]) & 128) != over:
      acc.find(f"NVMAX bit is {'set' if int(ov[w]) & 128 else 'clear'} with {cnt} awake dofs and capacity {cap} (overflow word zeroed before the call)",
               "island._compact_dofs", "nvmax-bit-subset", world=w, **replay)
    if over:
      continue   # behaviour undefined by contract; only the bit is checked
    awk = np.zeros(nv, bool)
    for t in range(nt):
      if ta[w, t] == 1:
        awk[adr[t]:adr[t] + num[t]] = True
    if (~awk).any():
      mx = {k: float(np.abs(v[w][~awk]).max()) for k, v in out.items()}
      if any(not (x == 0.0) for x in mx.values()):
        acc.find(f"frozen dofs (trees asleep) have nonzero output after forward(): max |.| = {mx}", "solver.solve_compact", "frozen-dof-nonzero",
                 world=w, **replay)
    if awk.any():
      # awake trees are decoupled from the sleeping ones (no contact, no cross-tree rows): their part of the full solve is the reference
      mref.qpos[:], mref.qvel[:], mref.qfrc_applied[:] = qpos, qv[w], qf[w]
      mujoco.mj_forward(mn, mref)
      if nefc[w] > 0:
        acc.hit("hist:constrained")
      for name, got in out.items():
        ref = getattr(mref, name)
        scale = 1.0 + float(np.abs(ref[awk]).max())
        err = float(np.abs(got[w][awk] - ref[awk]).max()) / scale
        if not err < 2e-3:
          acc.find(f"{name} of the awake trees after the compacted solve differs from MuJoCo's full solve: rel. err {err:.3g} (scale {scale:.3g})",
                   "solver.solve_compact", "subset-vs-full", world=w, field=name, **replay)


def _history_case(acc, rng, c, mujoco, mjw, wp, seed):
  from mujoco_warp._src import types as T
  sparse = c % 2 == 1
  cone = 'cone="elliptic"' if rng.random() < 0.5 else ""
  public = c % 4 == 0                      # this case additionally runs the public-inputs-only leg (gravity off so that trees fall asleep)
  grav = 0 if public or rng.random() < 0.5 else -9.81
  kinds, xs, xn = _forest(rng, sparse, cone, grav)
  ms, mn = mujoco.MjModel.from_xml_string(xs), mujoco.MjModel.from_xml_string(xn)
  nv, nt = ms.nv, ms.ntree
  adr, num = ms.tree_dofadr.copy(), ms.tree_dofnum.copy()
  mode = MODES[c % 4]
  nworld = 2 if mode in ("small2", "mid") else 1
  maxtree = int(num.max())
  # DOF capacity in rotation: small -> nvmax_pad = 16 < nv (the maps are wider than the compacted workspace); default -> nvmax = nv;
  # mid -> some subsets exceed it
  nvmax = int(rng.integers(maxtree, 16)) if mode in ("small", "small2") else int(rng.integers(maxtree, nv)) if mode == "mid" else None
  cap = nv if nvmax is None else nvmax
  mjd = mujoco.MjData(ms)
  mjd.qpos[:] = qpos = _rand_qpos(ms, rng)
  mujoco.mj_forward(ms, mjd)
  m = mjw.put_model(ms)
  d = mjw.put_data(ms, mjd, nworld=nworld, nvmax=nvmax, njmax=64)
  nvp = int(d.nvmax_pad)
  acc.hit(f"hist:mode:{mode}")
  acc.hit("hist:sparse" if sparse else "hist:dense")
  acc.hit("hist:nvmax_pad<nv" if nvp < nv else "hist:nvmax_pad>=nv")
  acc.distinct.add(("hist", c, tuple(kinds), nvmax))
  acc.sample({"history": True, "kinds": kinds, "nv": int(nv), "nvmax": nvmax, "nvmax_pad": nvp, "nworld": nworld})

  def fits(S):
    return sum(int(num[t]) for t in S) <= cap

  # awake-set sequence per world: HIGHEST-index tree first (dofs above nvmax_pad are awake once), then nothing, then a low tree in the same
  # compacted slots, then random subsets; mid: every tree (overflow) in the middle, then fitting sets again; default: every tree at the end
  seqs = []
  for w in range(nworld):
    hi = nt - 1 - w
    third = [0, hi] if (w == 1 and fits([0, hi])) else [0]
    seq = [[hi], [], third]
    for _ in range(2):
      while True:
        S = [t for t in range(nt) if rng.random() < 0.5]
        if mode == "mid" or fits(S):
          break
      seq.append(S)
    if mode == "default":
      seq.append(list(range(nt)))
    if mode == "mid":
      seq.insert(3, list(range(nt)))
    seqs.append(seq)
  awake_val = -(1 + T.MJ_MINAWAKE)
  mref = mujoco.MjData(mn)
  for k in range(len(seqs[0])):
    ta, tas = np.zeros((nworld, nt), np.int32), np.zeros((nworld, nt), np.int32)
    qv, qf = np.zeros((nworld, nv), np.float32), np.zeros((nworld, nv), np.float32)
    for w in range(nworld):
      for t in range(nt):
        if t in seqs[w][k]:
          ta[w, t], tas[w, t] = 1, awake_val
          sl = slice(adr[t], adr[t] + num[t])
          qv[w, sl] = rng.normal(size=num[t]) * 0.5
          qf[w, sl] = rng.normal(size=num[t]) * 2.0
        else:
          tas[w, t] = t      # asleep, its own sleep cycle (what put_data takes over from MjData.tree_asleep); qvel = qfrc_applied = 0 there
    # the sleep state is Data state (put_data copies it from MjData); forward() = wake() + update_sleep() recomputes everything else from it
    wp.copy(d.tree_asleep, wp.array(tas, dtype=int))
    wp.copy(d.tree_awake, wp.array(ta, dtype=int))
    wp.copy(d.qvel, wp.array(qv, dtype=float))
    wp.copy(d.qfrc_applied, wp.array(qf, dtype=float))
    d.overflow.zero_()
    mjw.forward(m, d)
    if not (d.tree_awake.numpy() == ta).all():
      acc.hit("hist:setup-awake-set-differs(skipped)")
      continue
    if k > 0:
      acc.hit("hist:call-with-history")
    _check_call(acc, mujoco, d, mn, mref, qpos, qv, qf, ta, adr, num, cap,
                dict(leg="state", xml=xs, nvmax=nvmax, call=k, awake_sets=[s[:k + 1] for s in seqs], seed=seed, case=c))

  if not public:
    return
  # public-inputs-only leg (qfrc_applied, forward, step): every tree asleep at put_data; push the highest tree -> wakes; release and step
  # until it sleeps again; push tree 0 -> wakes and takes the compacted slots the other one had
  qpos = qpos.copy()
  for j in range(ms.njnt):
    if int(ms.jnt_type[j]) == 3:     # inside the limits: a released tree must come to rest, not be pushed back by a violated limit
      qpos[ms.jnt_qposadr[j]] = np.clip(qpos[ms.jnt_qposadr[j]], -0.9, 0.9)
  mjd = mujoco.MjData(ms)
  mjd.qpos[:] = qpos
  mujoco.mj_forward(ms, mjd)
  mjd.tree_asleep[:] = np.arange(nt)
  d = mjw.put_data(ms, mjd, nworld=1, nvmax=nvmax, njmax=64)
  zero = np.zeros((1, nv), np.float32)

  def push(t):
    f = zero.copy()
    if t is not None:
      f[0, adr[t]:adr[t] + num[t]] = rng.normal(size=num[t]) * 2.0
    wp.copy(d.qfrc_applied, wp.array(f, dtype=float))
    return f

  for stage, t in enumerate((nt - 1, 0)):
    f = push(t)
    mjw.forward(m, d)
    ta = d.tree_awake.numpy().copy()
    if ta.sum() != 1 or ta[0, t] != 1:
      acc.hit("hist:public-setup-failed(skipped)")
      return
    acc.hit("hist:public-call")
    _check_call(acc, mujoco, d, mn, mref, qpos, zero, f, ta, adr, num, cap,
                dict(leg="public", xml=xs, nvmax=nvmax, stage=stage, pushed_tree=int(t), seed=seed, case=c))
    if stage == 0:
      push(None)
      for _ in range(40):
        mjw.step(m, d)
        if d.tree_awake.numpy().sum() == 0:
          break
      else:
        acc.hit("hist:public-setup-failed(skipped)")
        return
      if np.abs(d.qpos.numpy()[0] - qpos).max() > 1e-5:   # nothing moved (no gravity, zero velocity): the reference state is unchanged
        acc.hit("hist:public-setup-failed(skipped)")
        return


def _run(ctx, ncases, rec, nhist=0):
  import mujoco
  import mujoco_warp as mjw
  rng = np.random.default_rng(ctx.seed * 1000 + 38)
  acc = Acc()

  def scenario():
    import warp as wp
    rngh = np.random.default_rng(ctx.seed * 1000 + 3838)
    for c in range(nhist):      # first, so that the intercepted launches include calls with history and nvmax_pad < nv
      _history_case(acc, rngh, c, mujoco, mjw, wp, ctx.seed)
    for c in range(ncases):
      cone = 'cone="elliptic"' if rng.random() < 0.5 else ""
      sparse = rng.random() < 0.4
      if sparse:
        cone += ' jacobian="sparse"'
      xs = XML.format(cone=cone, flag='<flag sleep="enable"/>')
      xn = XML.format(cone=cone, flag="")
      ms, mn = mujoco.MjModel.from_xml_string(xs), mujoco.MjModel.from_xml_string(xn)
      mjd = mujoco.MjData(mn)
      mjd.qpos[:] = mn.qpos0 + rng.normal(size=mn.nq) * 0.02
      mjd.qvel[:] = rng.normal(size=mn.nv) * 0.5   # everybody moving -> every tree awake
      nworld = int(rng.integers(1, 3))
      res = {}
      for name, mm in (("full", mn), ("compact", ms)):
        md = mujoco.MjData(mm)
        md.qpos[:], md.qvel[:] = mjd.qpos, mjd.qvel
        mujoco.mj_forward(mm, md)
        m = mjw.put_model(mm)
        d = mjw.put_data(mm, md, nworld=nworld)
        mjw.forward(m, d)
        res[name] = (d.qacc.numpy().copy(), d.overflow.numpy().copy())
      acc.evals += 1
      acc.distinct.add((c, cone))
      qa, qb = res["full"][0], res["compact"][0]
      # determinism of the compacted path: identical inputs, fresh Data each time
      reps = []
      for _ in range(4):
        md = mujoco.MjData(ms)
        md.qpos[:], md.qvel[:] = mjd.qpos, mjd.qvel
        mujoco.mj_forward(ms, md)
        m2 = mjw.put_model(ms)
        d2 = mjw.put_data(ms, md, nworld=nworld)
        mjw.forward(m2, d2)
        reps.append(d2.qacc.numpy().copy())
        acc.evals += 1
      nondet = len({r.tobytes() for r in reps}) > 1
      if nondet:
        acc.find("the compacted (sleep-enabled) solve gives different qacc on identical inputs (uninitialised scratch is read)", "solver (compact)",
                 "sleep-nondeterminism", xml=xs, sparse=sparse)
      elif not np.allclose(qa, qb, rtol=2e-3, atol=2e-3 * (1 + np.abs(qa).max())):
        acc.find("qacc of the compacted solve (sleep enabled, all awake) differs from the full solve", "solver.smooth_solve_compact",
                 "compact-vs-full", xml=xs, sparse=sparse, max_abs_diff=float(np.abs(qa - qb).max()))
      acc.hit("sparse" if sparse else "dense")
      # DOF capacity: sweep nvmax
      for nvmax in sorted(set([ms.nv, ms.nv - 1, max(1, ms.nv // 2)])):
        md = mujoco.MjData(ms)
        md.qpos[:], md.qvel[:] = mjd.qpos, mjd.qvel
        try:
          m = mjw.put_model(ms)
          d = mjw.put_data(ms, md, nworld=nworld, nvmax=nvmax)
          mjw.forward(m, d)
        except ValueError:
          continue
        except Exception as e:
          acc.find(f"forward with nvmax={nvmax} raised {type(e).__name__}: {e}", "solver", "crash", xml=xs, nvmax=nvmax)
          continue
        acc.evals += 1
        bit = (d.overflow.numpy() & 128) != 0
        if nvmax < ms.nv and not bit.all():
          acc.find(f"awake dofs {ms.nv} exceed nvmax {nvmax} but the NVMAX bit is not set", "island._compact_dofs", "nvmax-silent", xml=xs, nvmax=nvmax)
        if nvmax >= ms.nv and bit.any():
          acc.find(f"NVMAX bit set although nvmax {nvmax} >= awake dofs {ms.nv}", "island._compact_dofs", "nvmax-spurious", xml=xs, nvmax=nvmax)
        if nvmax >= ms.nv and not np.allclose(d.qacc.numpy(), qa, rtol=2e-3, atol=2e-3 * (1 + np.abs(qa).max())):
          acc.find(f"qacc with nvmax={nvmax} (exact fit) differs from the full solve", "island._compact_dofs",
                   "nvmax-exact-fit", xml=xs, nvmax=nvmax, sparse=sparse)
        acc.hit("exact-fit" if nvmax == ms.nv else "short")
      acc.sample({"nv": int(ms.nv), "cone": cone, "nworld": nworld})

  if rec:
    kc, _ = intercept(KERNELS, scenario, rng, max_tids=16, per_kernel=3)
  else:
    scenario()
    kc = None
  return acc, kc


RULE = ("history leg (first): forest of 4-6 independent trees out of {free+hinge, free, 3-hinge chain, slide+hinge, ball+hinge}, 20 <= nv <= 36, frictionloss + joint limits, no contact; "
        "case c: jacobian sparse iff c odd, DOF capacity mode MODES[c % 4] (small: nvmax in [largest tree, 15] -> nvmax_pad = 16 < nv; default; mid: nvmax in [largest tree, nv) with the "
        "all-trees set forcing an overflow in the middle; small2: small with 2 worlds and different awake sets); one Data, 5-6 forward() calls with awake sets "
        "[highest tree], [], [tree 0 (+ highest, world 1)], random, random (+ all trees); per call and world: compaction maps vs NumPy transcription, NVMAX bit iff count > nvmax, frozen dofs "
        "exactly 0, awake dofs vs MuJoCo full solve (rel. 2e-3 of 1 + max|ref|); every 4th case also the public-inputs leg (all asleep, push highest tree, release + step until asleep, "
        "push tree 0). Then the 3-tree scene on a floor with everybody moving (all trees awake); forward() with sleeping enabled (compacted solve) vs disabled (full solve), both cones, "
        "1-2 worlds; then nvmax swept over {nv, nv-1, nv/2}: NVMAX bit iff short, exact fit equals the full solve; distinct = (case, cone) + (hist, case, tree kinds, nvmax)")


def correspondence(ctx):
  acc, kc = _run(ctx, 16 if ctx.thorough else 4, True, nhist=32 if ctx.thorough else 8)
  return result(acc, RULE, kc=kc)


def search(ctx, breaks):
  acc, _ = _run(ctx, 40, False, nhist=40)
  return search_result(acc, "the non-compacted solve + NVMAX bit under an nvmax sweep; awake-set sequences on one Data vs rebuilt maps / frozen-zero / MuJoCo full solve")
