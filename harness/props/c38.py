"""C38 Compacted active-DOF solve is equivalent."""
from __future__ import annotations
import numpy as np
from .common import Acc, intercept, result, search_result

ID = "C38"
LEAN_MODULES = ["MjwVerif.Props.C38"]
GEN_FUNCS = ["island._reset_compact_maps", "island._compact_dofs"]
KERNELS = ["island._reset_compact_maps", "island._compact_dofs"]
LEVEL_TEXT = ("Theorems about the compaction kernels regenerated from island.py/solver.py on every run, for all sizes and task orders: the generated kernels equal a hand-written model; with "
              "count <= nvmax the maps dof_cdof/cdof_dof are mutually inverse between awake dofs and [0,ncdof), -1 elsewhere (incl. the padded tail), order inside a tree preserved; the NVMAX bit is "
              "set iff count > nvmax (exact fit grants everything, ncdof = min(count,nvmax)); gather followed by scatter restores qacc on active dofs and writes exactly 0 on frozen ones. "
              "That a dense solve on the compacted problem equals the full solve when every tree is awake is sampled (sleep-enabled vs sleep-disabled forward()).")
LEVEL_NOTE = "C38_partial: numerical equality of the compact Newton solve with the full solve is sampled. Trusted: Lean kernel, tier-B translator (interception)."
ASSUMPTIONS = ["tree dof ranges are disjoint (MuJoCo compiler invariant)"]

XML = """
<mujoco>
  <option timestep="0.005" {cone}>{flag}</option>
  <worldbody>
    <geom type="plane" size="5 5 .1"/>
    <body pos="0 0 .1"><freejoint/><geom type="sphere" size=".1"/></body>
    <body pos=".5 0 .3"><freejoint/><geom type="box" size=".1 .1 .1"/><body pos=".3 0 0"><joint type="hinge" axis="0 1 0"/><geom type="capsule" size=".04 .1"/></body></body>
    <body pos="-.6 0 .5"><joint type="slide" axis="0 0 1"/><geom size=".05"/></body>
  </worldbody>
</mujoco>
"""


def _run(ctx, ncases, rec):
  import mujoco
  import mujoco_warp as mjw
  rng = np.random.default_rng(ctx.seed * 1000 + 38)
  acc = Acc()

  def scenario():
    for c in range(ncases):
      cone = 'cone="elliptic"' if rng.random() < 0.5 else ""
      sparse = rng.random() < 0.4
      if sparse:
        cone += ' jacobian="sparse"'
      xs = XML.format(cone=cone, flag='<flag sleep="enable"/>')
      xn = XML.format(cone=cone, flag="")
      ms, mn = mujoco.MjModel.from_xml_string(xs), mujoco.MjModel.from_xml_string(xn)
      mjd = mujoco.MjData(mn)
      mjd.qpos[:] = mn.qpos0 + rng.normal(size=mn.nq) * 0.02
      mjd.qvel[:] = rng.normal(size=mn.nv) * 0.5   # everybody moving -> every tree awake
      nworld = int(rng.integers(1, 3))
      res = {}
      for name, mm in (("full", mn), ("compact", ms)):
        md = mujoco.MjData(mm)
        md.qpos[:], md.qvel[:] = mjd.qpos, mjd.qvel
        mujoco.mj_forward(mm, md)
        m = mjw.put_model(mm)
        d = mjw.put_data(mm, md, nworld=nworld)
        mjw.forward(m, d)
        res[name] = (d.qacc.numpy().copy(), d.overflow.numpy().copy())
      acc.evals += 1
      acc.distinct.add((c, cone))
      qa, qb = res["full"][0], res["compact"][0]
      # determinism of the compacted path: identical inputs, fresh Data each time
      reps = []
      for _ in range(4):
        md = mujoco.MjData(ms)
        md.qpos[:], md.qvel[:] = mjd.qpos, mjd.qvel
        mujoco.mj_forward(ms, md)
        m2 = mjw.put_model(ms)
        d2 = mjw.put_data(ms, md, nworld=nworld)
        mjw.forward(m2, d2)
        reps.append(d2.qacc.numpy().copy())
        acc.evals += 1
      nondet = len({r.tobytes() for r in reps}) > 1
      if nondet:
        acc.find("the compacted (sleep-enabled) solve gives different qacc on identical inputs (uninitialised scratch is read)", "solver (compact)",
                 "sleep-nondeterminism", xml=xs, sparse=sparse)
      elif not np.allclose(qa, qb, rtol=2e-3, atol=2e-3 * (1 + np.abs(qa).max())):
        acc.find("qacc of the compacted solve (sleep enabled, all awake) differs from the full solve", "solver.smooth_solve_compact",
                 "compact-vs-full", xml=xs, sparse=sparse, max_abs_diff=float(np.abs(qa - qb).max()))
      acc.hit("sparse" if sparse else "dense")
      # DOF capacity: sweep nvmax
      for nvmax in sorted(set([ms.nv, ms.nv - 1, max(1, ms.nv // 2)])):
        md = mujoco.MjData(ms)
        md.qpos[:], md.qvel[:] = mjd.qpos, mjd.qvel
        try:
          m = mjw.put_model(ms)
          d = mjw.put_data(ms, md, nworld=nworld, nvmax=nvmax)
          mjw.forward(m, d)
        except ValueError:
          continue
        except Exception as e:
          acc.find(f"forward with nvmax={nvmax} raised {type(e).__name__}: {e}", "solver", "crash", xml=xs, nvmax=nvmax)
          continue
        acc.evals += 1
        bit = (d.overflow.numpy() & 128) != 0
        if nvmax < ms.nv and not bit.all():
          acc.find(f"awake dofs {ms.nv} exceed nvmax {nvmax} but the NVMAX bit is not set", "island._compact_dofs", "nvmax-silent", xml=xs, nvmax=nvmax)
        if nvmax >= ms.nv and bit.any():
          acc.find(f"NVMAX bit set although nvmax {nvmax} >= awake dofs {ms.nv}", "island._compact_dofs", "nvmax-spurious", xml=xs, nvmax=nvmax)
        if nvmax >= ms.nv and not np.allclose(d.qacc.numpy(), qa, rtol=2e-3, atol=2e-3 * (1 + np.abs(qa).max())):
          acc.find(f"qacc with nvmax={nvmax} (exact fit) differs from the full solve", "island._compact_dofs",
                   "nvmax-exact-fit", xml=xs, nvmax=nvmax, sparse=sparse)
        acc.hit("exact-fit" if nvmax == ms.nv else "short")
      acc.sample({"nv": int(ms.nv), "cone": cone, "nworld": nworld})

  if rec:
    kc, _ = intercept(KERNELS, scenario, rng, max_tids=16, per_kernel=3)
  else:
    scenario()
    kc = None
  return acc, kc


RULE = ("3-tree scene on a floor with everybody moving (all trees awake); forward() with sleeping enabled (compacted solve) vs disabled (full solve), both cones, 1-2 worlds; then nvmax swept over "
        "{nv, nv-1, nv/2}: NVMAX bit iff short, exact fit equals the full solve; distinct = (case, cone)")


def correspondence(ctx):
  acc, kc = _run(ctx, 16 if ctx.thorough else 4, True)
  return result(acc, RULE, kc=kc)


def search(ctx, breaks):
  acc, _ = _run(ctx, 40, False)
  return search_result(acc, "the non-compacted solve + NVMAX bit under an nvmax sweep")
