"""C31 Host/device conversion is faithful."""
from __future__ import annotations
import ast
import copy
import inspect
import os
import re
import subprocess
import warnings
import numpy as np
from .common import Acc, result, search_result

ID = "C31"
LEAN_MODULES = ["MjwVerif.Props.C31", "MjwVerif.Props.C31Witness"]
GEN_FUNCS = []
NEEDS_DRIVER = False
LEVEL_TEXT = ("Theorems about a hand-written executable Lean model (Model/IoOrder.lean) of the index computations of io.py put_data / get_data_into (host NumPy, not translated): for all contact "
              "lists (excluded contacts with efc_address -1 included), row lists, capacities, cones and world counts `get (put h) w = h` for every world (`roundtrip`, `roundtrip_any_padding`); the "
              "exported contacts are exactly world w's live slots in slot order (`sel_sublist`, `mem_sel`); `efc_idx` is a permutation of the active rows when the active contact blocks tile "
              "[ne+nf+nl, nefc) (`efc_reorder_perm`, `efc_rows_perm`); the e/f/l prefix is passed through (`efl_prefix_identity`); the k-th row of the i-th exported active contact sits at "
              "efc_address_ordered[i]+k and is device row efc_address[slot_i,k] (`address_remap_consistent`), a contact without rows is exported with -1 (`inactive_contact_exported_minus_one`).  "
              "Machine-checked witnesses of what is still false: efc_id is not remapped to the exported contact list, sensor-only contact slots are exported.  The model is tied to the source by "
              "sending the integer inputs of real put_data/get_data_into calls (random scenes, fuzzed address tables) to the model and comparing every answer with the real arrays.  On the real "
              "code: put_model vs MjModel field by field, every unsupported enum value of the tables scanned from put_model's source must raise, feature sweep against mj_forward, "
              "put_data->get_data_into round trip of every field get_data_into writes, and MuJoCo's efc_address/efc_id invariants of the export after mjw.forward.  Two defects found by this check "
              "were repaired in /repo: 'fix: get_data_into used the -1 efc_address of a contact without constraint rows as a row index' (e4120b4) and 'fix: put_model silently ignored "
              "opt.disableactuator (actuatorgroupdisable)' (7358257); their triggers run first as regression cases.")
TECHNIQUE = ("Lean 4 theorems over a hand-written executable model of put_data/get_data_into's index logic (Model/IoOrder.lean) tied to the real host code by a line-protocol correspondence (Driver/ProtoIo.lean) on every run; AST scan of put_model's rejection tables; oracle: MjModel/MjData round trip")
LEVEL_NOTE = ("C31_partial: put_model (feature rejection, field equality) and the plain per-world field copies are decided by the oracle only; the Lean model is hand-written (tie = correspondence run, "
              "not regeneration). Still present in /repo (known findings): efc-id-not-remapped, extra-contacts-exported. Trusted: Lean kernel, the correspondence run.")
ASSUMPTIONS = ["float32 storage: round-trip comparisons use rtol 2e-6", "fields whose layout legitimately differs (qLD block layout, island bookkeeping, energy without the energy flag) are listed in SKIP_FIELDS and counted"]
VERIF = os.path.abspath(os.path.join(os.path.dirname(__file__), "..", ".."))
LEAN = os.path.join(VERIF, "lean")

CONTACT_COLS = ["dist", "pos", "frame", "includemargin", "friction", "solref", "solreffriction", "solimp", "dim", "geom"]
EFC_COLS = ["type", "id", "pos", "margin", "D", "vel", "aref", "frictionloss", "force"]
# get_data_into fields that are not a plain copy of MjData's (documented layout differences / bookkeeping MuJoCo fills elsewhere)
SKIP_FIELDS = {"qLD": "block Cholesky layout, refactored by mj_factorM", "solver_niter": "solver statistics", "energy": "only with the energy flag",
               "efc_state": "not transferred by put_data", "efc_island": "island bookkeeping", "efc_J": "compared densified", "contact": "compared column by column"}


# ------------------------------------------------------------------------------------------------ Lean side
class LeanIo:
  """`lake env lean --run Driver/ProtoIo.lean`: one request line -> one answer line (Mjw.IoOrder.proto)"""

  def __init__(self):
    self.p = subprocess.Popen(["lake", "env", "lean", "--run", "Driver/ProtoIo.lean"], cwd=LEAN, stdin=subprocess.PIPE, stdout=subprocess.PIPE, stderr=subprocess.PIPE, text=True)

  def ask(self, line):
    self.p.stdin.write(line + "\n")
    self.p.stdin.flush()
    out = self.p.stdout.readline()
    if out == "":
      raise RuntimeError("Lean driver died: " + self.p.stderr.read()[-400:])
    return out.rstrip("\n")

  def close(self):
    try:
      self.p.stdin.close()
      self.p.wait(timeout=20)
    except Exception:
      self.p.kill()


def _ints(s):
  s = s.strip()
  return [int(t) for t in s.split(" ")] if s else []


# ------------------------------------------------------------------------------------------------ scenes
def _scene(rng, gap_prob=0.15, cone=None, wide=False):
  cone = cone or ("pyramidal" if rng.random() < 0.5 else "elliptic")
  jac = str(rng.choice(["dense", "sparse", "auto"]))
  n = int(rng.integers(1, 5))
  if rng.random() < 0.25 or wide:
    # (forced for one case of every run) 32 < nv < 60 with jacobian="auto": mujoco_warp works with a sparse Jacobian there while MuJoCo's MjData is dense
    n, jac = int(rng.integers(6, 9)), "auto"
  bodies, meta = [], {"cone": cone, "jac": jac, "gap": 0, "kinds": []}
  for i in range(n):
    kind = str(rng.choice(["rest", "margin", "gap", "far"], p=[0.55, 0.2, gap_prob, 0.25 - gap_prob]))
    gt = str(rng.choice(["sphere", "capsule", "box"])) if kind == "rest" else str(rng.choice(["sphere", "capsule"]))
    condim = int(rng.choice([1, 3, 4, 6]))
    r = 0.1
    attr = ""
    if kind == "rest":
      z = r - 0.01
    elif kind == "margin":
      z, attr = r + 0.02, ' margin="0.05"'
    elif kind == "gap":
      z, attr = r + 0.09, ' margin="0.05" gap="0.08"'
      meta["gap"] += 1
    else:
      z = 1.0
    geom = {"sphere": f'<geom name="g{i}" type="sphere" size="{r}" condim="{condim}"{attr}/>',
            "capsule": f'<geom name="g{i}" type="capsule" size="{r} .15" euler="0 1.5707963 0" condim="{condim}"{attr}/>',
            "box": f'<geom name="g{i}" type="box" size="{r} {r} {r}" condim="{condim}"/>'}[gt]
    bodies.append(f'<body name="b{i}" pos="{0.7 * i} 0 {z}"><freejoint/>{geom}</body>')
    meta["kinds"].append((kind, gt, condim))
  arm = ""
  extra = ""
  meta["distsensor"] = bool(n >= 2 and rng.random() < 0.25)
  if meta["distsensor"]:
    extra += '<sensor><distance geom1="g0" geom2="g1" cutoff="10"/></sensor>'
  if rng.random() < 0.7:
    fl = ' frictionloss="0.3"' if rng.random() < 0.6 else ""
    lim = ' limited="true" range="0.2 0.5"' if rng.random() < 0.7 else ""
    fl2 = ' frictionloss="0.1"' if rng.random() < 0.5 else ""
    arm = (f'<body pos="0 2 1"><joint name="h" type="hinge" axis="0 1 0"{lim}{fl}/><geom size=".05" contype="0" conaffinity="0"/>'
           f'<body pos=".3 0 0"><joint name="s" type="slide" axis="1 0 0"{fl2} limited="true" range="0.05 .2"/>'
           f'<geom size=".04" contype="0" conaffinity="0"/><site name="tip"/></body></body>')
    eq = ""
    if rng.random() < 0.5:
      eq += '<joint joint1="h" joint2="s"/>'
    if rng.random() < 0.4:
      eq += f'<connect body1="b0" anchor="0 0 0"/>'
    if rng.random() < 0.3 and n >= 2:
      eq += f'<weld body1="b1"/>'
    if eq:
      extra += f"<equality>{eq}</equality>"
    if rng.random() < 0.5:
      extra += ('<tendon><fixed name="t" limited="true" range="0.3 1"' + (' frictionloss="0.2"' if rng.random() < 0.5 else "") + '><joint joint="h" coef="1"/><joint joint="s" coef="-1"/></fixed></tendon>')
    extra += '<actuator><motor joint="h"/><position joint="s" kp="10"/></actuator><sensor><jointpos joint="h"/><framepos objtype="site" objname="tip"/></sensor>'
  xml = (f'<mujoco><option cone="{cone}" jacobian="{jac}"/><worldbody><geom type="plane" size="5 5 .1"/>{"".join(bodies)}{arm}</worldbody>{extra}</mujoco>')
  return xml, meta


def _state(rng, mjm, mjd):
  import mujoco
  mjd.qvel[:] = 0.3 * rng.normal(size=mjm.nv)
  mjd.ctrl[:] = rng.normal(size=mjm.nu)
  mjd.time = float(rng.uniform(0, 3))
  mjd.qfrc_applied[:] = 0.1 * rng.normal(size=mjm.nv)
  mujoco.mj_forward(mjm, mjd)


def _pyr(mjm):
  import mujoco
  return int(mjm.opt.cone == mujoco.mjtCone.mjCONE_PYRAMIDAL)


# ------------------------------------------------------------------------------------------------ model <-> code
def _dev_J_dense(m, mjm, d, w, nrows):
  """device efc_J of world w, rows [0, nrows), densified independently of get_data_into"""
  nv = mjm.nv
  out = np.zeros((nrows, nv))
  if m_is_sparse(mjm):
    J = d.efc.J.numpy()[w, 0]
    nnz = d.efc.J_rownnz.numpy()[w]
    adr = d.efc.J_rowadr.numpy()[w]
    col = d.efc.J_colind.numpy()[w, 0]
    for r in range(nrows):
      for k in range(adr[r], adr[r] + nnz[r]):
        out[r, col[k]] = J[k]
  else:
    out[:] = d.efc.J.numpy()[w, :nrows, :nv]
  return out


def m_is_sparse(mjm):
  from mujoco_warp._src import io
  return io.is_sparse(mjm)


def _res_J_dense(mjm, res):
  import mujoco
  nv, nefc = mjm.nv, res.nefc
  if nefc == 0:
    return np.zeros((0, nv))
  if mujoco.mj_isSparse(mjm):
    out = np.zeros((nefc, nv))
    mujoco.mju_sparse2dense(out, res.efc_J, res.efc_J_rownnz, res.efc_J_rowadr, res.efc_J_colind)
    return out
  return np.array(res.efc_J[: nefc * nv]).reshape(nefc, nv)


def _corr_put(lean, mjm, mjd, d, nworld, dis, what):
  """real put_data result vs Mjw.IoOrder.put"""
  naconmax, njmax = int(d.naconmax), int(d.njmax)
  adr_dev = d.contact.efc_address.numpy()
  p = adr_dev.shape[1]
  ncon, nefc = int(mjd.ncon), int(mjd.nefc)
  line = " ".join(str(int(x)) for x in ["0", _pyr(mjm), nworld, naconmax, njmax, p, ncon, nefc] + list(mjd.contact.dim[:ncon]) + list(mjd.contact.efc_address[:ncon]))
  ans = lean.ask("put" + line[1:])
  parts = [_ints(x) for x in ans.split("|")]
  if len(parts) != 6:
    dis.append({"what": f"put: malformed model answer {ans[:80]!r}", "case": what})
    return 0
  nacon, wid, dim, adr, src, rowsrc = parts
  bad = []
  if nacon != [int(d.nacon.numpy()[0])]:
    bad.append("nacon")
  if wid != d.contact.worldid.numpy().tolist():
    bad.append("worldid")
  if dim != d.contact.dim.numpy().tolist():
    bad.append("dim")
  if adr != adr_dev.reshape(-1).tolist():
    bad.append("efc_address")
  src = np.array(src, dtype=int)
  for c in CONTACT_COLS:
    real = getattr(d.contact, c).numpy().astype(np.float64)
    real = real.reshape(naconmax, -1) if naconmax else real.reshape(0, 0)
    exp = np.zeros_like(real)
    if ncon:
      host = np.asarray(getattr(mjd.contact, c), dtype=np.float64).reshape(ncon, -1)
      exp[src >= 0] = host[src[src >= 0]]
    if not np.allclose(real, exp, rtol=2e-6, atol=1e-30):
      bad.append("contact." + c)
  rowsrc = np.array(rowsrc, dtype=int)
  for c in EFC_COLS:
    real = getattr(d.efc, c).numpy().astype(np.float64)
    host = np.asarray(getattr(mjd, "efc_" + c), dtype=np.float64)
    exp = np.zeros(njmax)
    if nefc:
      exp[rowsrc >= 0] = host[rowsrc[rowsrc >= 0]]
    for w in range(nworld):
      if not np.allclose(real[w, :njmax], exp, rtol=2e-6, atol=1e-30):
        bad.append(f"efc.{c}[{w}]")
        break
  for b in bad:
    dis.append({"what": f"put_data vs Mjw.IoOrder.put: {b} differs", "case": what})
  return 1


def _get_request(mjm, d, w):
  naconmax, njmax = int(d.naconmax), int(d.njmax)
  adr = d.contact.efc_address.numpy()
  p = adr.shape[1]
  head = [_pyr(mjm), w, int(d.nacon.numpy()[0]), naconmax, njmax, int(d.efc.D.shape[1]), p, int(d.nefc.numpy()[w]), int(d.ne.numpy()[w]), int(d.nf.numpy()[w]), int(d.nl.numpy()[w])]
  return "get " + " ".join(str(int(x)) for x in head + d.contact.worldid.numpy().tolist() + d.contact.dim.numpy().tolist() + adr.reshape(-1).tolist())


def _corr_get(lean, mjw, mjm, d, w, dis, what):
  """real get_data_into result vs Mjw.IoOrder.get; returns ('ok'|'err', result MjData)"""
  import mujoco
  ans = lean.ask(_get_request(mjm, d, w))
  res = mujoco.MjData(mjm)
  try:
    with warnings.catch_warnings():
      warnings.simplefilter("ignore")
      mjw.get_data_into(res, mjm, d, world_id=w)
    real_err = None
  except (IndexError, ValueError, TypeError) as e:
    real_err = type(e).__name__
  if ans == "ERR" or real_err:
    if not (ans == "ERR" and real_err):
      dis.append({"what": f"get_data_into raised {real_err!r} but the model answered {ans[:60]!r}", "case": what})
    return "err", None
  parts = [_ints(x) for x in ans.split("|")]
  if len(parts) != 6:
    dis.append({"what": f"get: malformed model answer {ans[:80]!r}", "case": what})
    return "err", None
  (ncon,), slot, adro, rowidx, jrowidx, drowidx = parts
  bad = []
  njmax = int(d.njmax)
  nefc = min(int(d.nefc.numpy()[w]), njmax)
  if ncon != res.ncon or nefc != res.nefc or len(rowidx) != nefc:
    bad.append(f"ncon/nefc ({ncon},{len(rowidx)}) vs ({res.ncon},{res.nefc})")
  else:
    for c in CONTACT_COLS:
      real = np.asarray(getattr(res.contact, c), dtype=np.float64).reshape(-1)
      exp = getattr(d.contact, c).numpy().astype(np.float64)[slot].reshape(-1) if ncon else np.zeros(0)
      if not np.array_equal(real, exp):
        bad.append("contact." + c)
    if list(res.contact.efc_address[:ncon]) != adro:
      bad.append("contact.efc_address")
    for c in EFC_COLS:
      real = np.asarray(getattr(res, "efc_" + c), dtype=np.float64)
      exp = getattr(d.efc, c).numpy().astype(np.float64)[w][drowidx if c == "D" else rowidx] if nefc else np.zeros(0)
      if not np.array_equal(real, exp):
        bad.append("efc_" + c)
    if nefc:
      Jd = _dev_J_dense(None, mjm, d, w, nefc)
      if not np.array_equal(_res_J_dense(mjm, res), Jd[jrowidx]):
        bad.append("efc_J")
    if (res.ne, res.nf, res.nl) != (int(d.ne.numpy()[w]), int(d.nf.numpy()[w]), int(d.nl.numpy()[w])):
      bad.append("ne/nf/nl")
  for b in bad:
    dis.append({"what": f"get_data_into vs Mjw.IoOrder.get: {b} differs", "case": what})
  return "ok", res


def _fuzz_device(rng, d):
  """overwrite the integer inputs of get_data_into's index computation with arbitrary values (model <-> code only)"""
  import warp as wp
  naconmax, njmax = int(d.naconmax), int(d.njmax)
  nworld = int(d.nworld)
  adr = d.contact.efc_address.numpy()
  mode = int(rng.integers(0, 4))
  nacon = int(rng.integers(0, naconmax + 2))
  wid = rng.integers(0, nworld, size=naconmax)
  dim = rng.choice([1, 3, 4, 6], size=naconmax)
  if mode == 0:    # wild addresses incl. negative and out of range
    adr = rng.integers(-njmax - 2, njmax + 2, size=adr.shape)
  elif mode == 1:  # valid rows in arbitrary order, some -1
    adr = rng.integers(0, max(njmax, 1), size=adr.shape)
    adr[rng.random(adr.shape) < 0.15] = -1
  else:            # shuffled slots of the existing table
    perm = rng.permutation(naconmax)
    adr, dim0 = adr[perm], d.contact.dim.numpy()[perm]
    dim = np.where(dim0 > 0, dim0, dim)
  d.contact.efc_address = wp.array(adr.astype(np.int32), dtype=int)
  d.contact.worldid = wp.array(wid.astype(np.int32), dtype=int)
  d.contact.dim = wp.array(dim.astype(np.int32), dtype=int)
  d.nacon = wp.array([nacon], dtype=int)
  nefc = rng.integers(0, njmax + 2, size=nworld)
  ne = rng.integers(0, 3, size=nworld)
  nf = rng.integers(0, 3, size=nworld)
  nl = rng.integers(0, 3, size=nworld)
  if mode == 3:    # consistent counts: nefc = nefl + rows of the selected contacts of world 0 (often no truncation)
    pass
  d.nefc = wp.array(nefc.astype(np.int32), dtype=int)
  d.ne = wp.array(ne.astype(np.int32), dtype=int)
  d.nf = wp.array(nf.astype(np.int32), dtype=int)
  d.nl = wp.array(nl.astype(np.int32), dtype=int)
  # distinct row payloads so that a wrong row is visible
  for c in EFC_COLS:
    a = getattr(d.efc, c).numpy()
    a[...] = (np.arange(a.size).reshape(a.shape) % 1000 + {"type": 0, "id": 0}.get(c, 0.5)).astype(a.dtype)
    getattr(d.efc, c).assign(a)


# ------------------------------------------------------------------------------------------------ oracles on the real code
def _find_once(acc, key, what, site, trig, **kw):
  """one finding per (trigger, scene): the worlds of one scene repeat the same defect"""
  seen = acc.__dict__.setdefault("_seen", set())
  acc.hit("finding:" + trig)
  if (trig, key) in seen:
    return
  seen.add((trig, key))
  acc.find(what, site, trig, **kw)


def _written_fields():
  """names X of every `result.X[...] = ` / `result.X = ` in get_data_into's source (re-read each run)"""
  from mujoco_warp._src import io
  src = inspect.getsource(io.get_data_into)
  names = []
  for mm in re.finditer(r"^\s*result\.(\w+)(\[[^\]]*\])?\s*=", src, re.M):
    if mm.group(1) not in names:
      names.append(mm.group(1))
  return names


def _close(a, b):
  a, b = np.asarray(a, dtype=np.float64), np.asarray(b, dtype=np.float64)
  if a.shape != b.shape:
    return False
  return bool(np.allclose(a, b, rtol=2e-6, atol=1e-30))


def _oracle_roundtrip(acc, mjm, ref, res, w, nworld, xml, meta, fields):
  """res = get_data_into(put_data(ref), w) must reproduce ref"""
  bad = []
  ncon, nefc = int(ref.ncon), int(ref.nefc)
  for f in ("ncon", "nefc", "ne", "nf", "nl"):
    if int(getattr(res, f)) != int(getattr(ref, f)):
      bad.append(f)
  if not bad:
    for c in CONTACT_COLS + ["efc_address"]:
      if not _close(getattr(res.contact, c), getattr(ref.contact, c)):
        bad.append("contact." + c)
    for c in EFC_COLS:
      if not _close(getattr(res, "efc_" + c), getattr(ref, "efc_" + c)):
        bad.append("efc_" + c)
    if not _close(_res_J_dense(mjm, res), _res_J_dense(mjm, ref)):
      bad.append("efc_J")
  for f in fields:
    if f in SKIP_FIELDS or f in ("ncon", "ne", "nf", "nl") or f.startswith("efc_") or "island" in f or f.startswith("map_") or f in ("nidof",):
      acc.hit("field-skipped:" + f) if f in SKIP_FIELDS else None
      continue
    a, b = getattr(res, f), getattr(ref, f)
    if not _close(a, b):
      bad.append(f)
  if bad:
    _find_once(acc, xml, f"get_data_into(put_data(mjd, nworld={nworld}), world {w}) differs from mjd in {bad[:8]}", "io.get_data_into", "roundtrip-field", xml=xml, world=w, nworld=nworld,
               fields=bad[:12])
  return not bad


def _written_contact_fields():
  """names X of every `result.contact.X[...] = ` in get_data_into's source (re-read each run)"""
  from mujoco_warp._src import io
  src = inspect.getsource(io.get_data_into)
  names = []
  for mm in re.finditer(r"^\s*result\.contact\.(\w+)(\[[^\]]*\])?\s*=", src, re.M):
    if mm.group(1) not in names:
      names.append(mm.group(1))
  return names


FLEX_XML = """<mujoco><option CONE/><worldbody><geom name="floor" type="plane" size="5 5 .1"/>
  <geom name="ball" type="sphere" size=".1" pos="0.1 0.1 0.02"/><body pos=".6 0 .09"><freejoint/><geom size=".1" condim="COND"/></body>
  <flexcomp name="cloth" type="grid" count="4 4 1" spacing=".1 .1 .1" pos="0 0 HEIGHT" radius=".02" dim="2" mass="1"><contact selfcollide="none"/></flexcomp>
</worldbody></mujoco>"""


def _oracle_flex_roundtrip(acc, rng, mjw, mujoco, nscenes=3):
  """flex contacts (geom = -1, flex/elem/vert ids set) next to an ordinary contact: get_data_into(put_data(mjd)) must give back EVERY contact
  column that get_data_into writes (names scanned from its source: dist ... geom, flex, elem, vert, efc_address), for every world"""
  cols = _written_contact_fields()
  for k in range(nscenes):
    xml = (FLEX_XML.replace("CONE", 'cone="elliptic"' if k % 2 else "").replace("COND", str([3, 1, 4][k % 3])).replace("HEIGHT", f"{0.125 + 0.004 * rng.integers(0, 3):.3f}"))
    mjm = mujoco.MjModel.from_xml_string(xml)
    ref = mujoco.MjData(mjm)
    mujoco.mj_forward(mjm, ref)
    if not ref.ncon or not (np.asarray(ref.contact.geom)[:, 0] < 0).any() and not (np.asarray(ref.contact.flex) >= 0).any():
      acc.hit("flex-roundtrip:no-flex-contact")
      continue
    nworld = 1 + k % 2
    d = mjw.put_data(mjm, ref, nworld=nworld)
    for w in range(nworld):
      res = mujoco.MjData(mjm)
      mjw.get_data_into(res, mjm, d, world_id=w)
      bad = [f for f in ("ncon", "nefc") if int(getattr(res, f)) != int(getattr(ref, f))]
      if not bad:
        bad = ["contact." + c for c in cols if not _close(getattr(res.contact, c), getattr(ref.contact, c))]
      acc.evals += 1
      if bad:
        _find_once(acc, xml, f"get_data_into(put_data(mjd, nworld={nworld}), world {w}) of a scene with flex contacts differs from mjd in {bad[:8]}", "io.get_data_into",
                   "roundtrip-flex-contact", xml=xml, world=w, nworld=nworld, fields=bad[:12])
    acc.hit("flex-roundtrip")
    acc.hit("flex-roundtrip:cols=" + ",".join(cols))


def _oracle_after_forward(acc, mjm, ref, res, d, w, xml):
  """internal consistency of what get_data_into exports after mjw.forward, and agreement with mj_forward up to order"""
  ncon, nefc = int(res.ncon), int(res.nefc)
  import mujoco
  pyr = _pyr(mjm)
  msgs = []
  if nefc != int(ref.nefc) or (int(res.ne), int(res.nf), int(res.nl)) != (int(ref.ne), int(ref.nf), int(ref.nl)):
    acc.hit("after-forward:row-count-differs-from-mujoco")
    return
  # MuJoCo's invariants of an MjData: efc_address of an included contact points at its first row, whose efc_id is the contact's index
  ctype = {int(mujoco.mjtConstraint.mjCNSTR_CONTACT_FRICTIONLESS), int(mujoco.mjtConstraint.mjCNSTR_CONTACT_PYRAMIDAL), int(mujoco.mjtConstraint.mjCNSTR_CONTACT_ELLIPTIC)}
  trig = None
  nacon = min(int(d.nacon.numpy()[0]), int(d.naconmax))
  live = d.contact.worldid.numpy()[:nacon] == w
  nconstraint = int(((d.contact.type.numpy()[:nacon][live] & 1) != 0).sum())     # ContactType.CONSTRAINT = 1
  if ncon != int(ref.ncon) and ncon != nconstraint:
    msgs.append(f"{ncon} contacts exported, MuJoCo has {int(ref.ncon)}: {ncon - nconstraint} exported slot(s) are sensor-only (no ContactType.CONSTRAINT bit)")
    trig = "extra-contacts-exported"
  for i in range(ncon):
    a = int(res.contact.efc_address[i])
    dim = int(res.contact.dim[i])
    nd = max(1, 2 * (dim - 1)) if pyr else dim
    if a < 0:
      continue
    if a + nd > nefc:
      msgs.append(f"contact {i}: efc_address {a} + {nd} rows > nefc {nefc}")
      trig = trig or "export-address-inconsistent"
      continue
    if any(int(res.efc_type[a + k]) not in ctype for k in range(nd)):
      msgs.append(f"contact {i}: rows at efc_address {a} have efc_type {res.efc_type[a:a + nd].tolist()}")
      trig = trig or "export-address-inconsistent"
    elif any(int(res.efc_id[a + k]) != i for k in range(nd)):
      msgs.append(f"contact {i}: rows at efc_address {a} have efc_id {res.efc_id[a:a + nd].tolist()} (index into the device's flat contact array, not into world {w}'s contacts)")
      trig = trig or "efc-id-not-remapped"
  # multiset of rows vs MuJoCo (type, pos) up to order
  if not msgs or trig == "efc-id-not-remapped":
    # pos - margin: mjw stores (pos, margin) = (margin, margin) in the tangential rows of an elliptic contact where MuJoCo stores (0, 0)
    k1 = sorted(zip(res.efc_type.tolist(), np.round(res.efc_pos - res.efc_margin, 4).tolist()))
    k2 = sorted(zip(ref.efc_type.tolist(), np.round(ref.efc_pos - ref.efc_margin, 4).tolist()))
    if len(k1) == len(k2) and not all(a[0] == b[0] and abs(a[1] - b[1]) < 2e-4 for a, b in zip(k1, k2)):
      msgs.append("efc (type, pos - margin) multiset differs from mj_forward")
      trig = trig or "rows-vs-mujoco"
  if msgs:
    _find_once(acc, xml, f"get_data_into after mjw.forward, world {w}: " + "; ".join(msgs[:3]), "io.get_data_into", trig, xml=xml, world=w)


def _scan_feature_tables():
  """the (model field, types enum, mujoco enum) triples of put_model's three check loops, extracted from the source"""
  from mujoco_warp._src import io
  tree = ast.parse(inspect.getsource(io.put_model))
  out = []
  for node in ast.walk(tree):
    if isinstance(node, ast.For) and isinstance(node.iter, ast.Tuple) and isinstance(node.target, ast.Tuple) and len(node.target.elts) == 3:
      body = ast.unparse(node)
      kind = "flags" if "bitwise_or" in body else ("scalar" if "not in set(" in body else ("array" if "np.isin" in body else None))
      if kind is None or "NotImplementedError" not in body:
        continue
      for e in node.iter.elts:
        if isinstance(e, ast.Tuple) and len(e.elts) == 3:
          out.append((kind, ast.unparse(e.elts[0]), ast.unparse(e.elts[1]), ast.unparse(e.elts[2])))
  return out


BASE_FEATURE_XML = ('<mujoco><option timestep="0.002"/><worldbody><geom type="plane" size="5 5 .1"/><body name="a" pos="0 0 .5"><joint name="j1" type="hinge" axis="0 1 0" damping=".2"/>'
                    '<geom name="g1" type="capsule" fromto="0 0 0 .3 0 0" size=".03"/><body name="b" pos=".3 0 0"><joint name="j2" type="slide" axis="0 0 1" range="-.5 .5"/><geom name="g2" size=".05"/>'
                    '<site name="s1"/></body></body><body name="c" pos="1 0 .0495"><freejoint name="fj"/><geom name="g3" size=".05"/><site name="s2"/></body></worldbody>'
                    '<tendon><fixed name="t1"><joint joint="j1" coef="1"/><joint joint="j2" coef="2"/></fixed><spatial name="t2"><site site="s1"/><site site="s2"/></spatial></tendon>'
                    '<equality><joint name="e1" joint1="j1" joint2="j2" active="false"/></equality>'
                    '<actuator><motor name="m1" joint="j1"/></actuator><sensor><jointpos joint="j1"/></sensor></mujoco>')


def _oracle_put_model_rejects(acc):
  """every value of a MuJoCo enum outside the supported table must make put_model raise (value poked into a supported model)"""
  import mujoco
  import mujoco_warp as mjw
  from mujoco_warp._src import types
  tables = _scan_feature_tables()
  acc.hit(f"feature-tables-scanned:{len(tables)}")
  if len(tables) < 10:
    acc.find(f"only {len(tables)} feature-check triples found in put_model's source (expected >= 10): the rejection tables moved", "io.put_model", "feature-table-scan")
  for kind, field, tname, mjname in tables:
    T = eval(tname, {"types": types})
    M = eval(mjname, {"mujoco": mujoco})
    sup = {int(v) for v in T}
    attr = field.split("mjm.")[1]
    for v in M.__members__.values():
      iv = int(v)
      if v.name.startswith("mjN"):      # counters (mjNGEOMTYPES, mjNDISABLE, ...), not values
        continue
      if kind == "flags":
        if iv & ~int(np.bitwise_or.reduce([int(x) for x in T])) == 0:
          continue
      elif iv in sup:
        continue
      mjm = mujoco.MjModel.from_xml_string(BASE_FEATURE_XML)
      try:
        if attr.startswith("opt."):
          cur = getattr(mjm.opt, attr[4:])
          setattr(mjm.opt, attr[4:], (cur | iv) if kind == "flags" else iv)
        else:
          arr = getattr(mjm, attr)
          if arr.shape[0] == 0:
            acc.hit("reject:no-instance-in-base-model:" + attr)
            continue
          arr[0] = iv
      except Exception as e:
        acc.hit("reject:cannot-poke:" + attr)
        continue
      acc.evals += 1
      try:
        with warnings.catch_warnings():
          warnings.simplefilter("ignore")
          mjw.put_model(mjm)
        acc.find(f"put_model accepted {attr} = {v.name}, which is not in types.{tname.split('.')[-1]}", "io.put_model", "unsupported-not-rejected", field=attr, value=v.name)
      except NotImplementedError:
        acc.hit("reject:NotImplementedError")
      except Exception as e:
        acc.hit("reject:" + type(e).__name__)
        acc.distinct.add(("reject-other", attr, v.name, type(e).__name__))


FEATURES = [
  ("noslip", 'option', ' noslip_iterations="3"', None),
  ("integrator-rk4", 'option', ' integrator="RK4"', None),
  ("integrator-implicit", 'option', ' integrator="implicit"', None),
  ("solver-pgs", 'option', ' solver="PGS"', None),
  ("cone-elliptic", 'option', ' cone="elliptic"', None),
  ("impratio", 'option', ' impratio="5" cone="elliptic"', None),
  ("wind-density", 'option', ' wind="1 0 0" density="1.2" viscosity="0.01"', None),
  ("gravcomp", 'body name="a"', ' gravcomp="0.7"', None),
  ("armature", 'joint name="j1"', ' armature="0.1"', None),
  ("springref", 'joint name="j2"', ' stiffness="30" springref="0.1"', None),
  ("frictionloss", 'joint name="j1"', ' frictionloss="0.2"', None),
  ("tendon-spring", 'fixed name="t1"', ' stiffness="5" damping="0.3" springlength="0.1"', None),
  ("tendon-armature", 'fixed name="t1"', ' armature="0.05"', None),
  ("spatial-tendon-limit", 'spatial name="t2"', ' limited="true" range="0 0.5"', None),
  ("eq-active", 'joint name="e1"', ' solref="0.01 1"', lambda s: s.replace('active="false"', 'active="true"')),
  ("actuator-gear-forcerange", 'motor name="m1"', ' gear="3" forcelimited="true" forcerange="-0.5 0.5"', None),
  ("actuator-actearly", 'motor name="m1"', '', lambda s: s.replace('<motor name="m1" joint="j1"/>', '<general name="m1" joint="j1" dyntype="filter" dynprm="0.05" actearly="true"/>')),
  ("geom-priority-solmix", 'geom name="g3"', ' priority="2" solmix="3" friction="0.3 0.01 0.001" condim="4"', None),
  ("geom-margin", 'geom name="g3"', ' margin="0.02"', None),
  ("geom-gap", 'geom name="g3"', ' margin="0.02" gap="0.05"', None),
  ("sleep-never-policy", 'body name="c"', ' sleep="never"', lambda s: s.replace("<option", '<option><flag sleep="enable"/></option><option')),
  ("override", 'option', ' o_margin="0.01"', lambda s: s.replace('timestep="0.002"', 'timestep="0.002"><flag override="enable"/></option><option')),
  ("fwdinv", 'option', '', lambda s: s.replace("<option", '<option><flag fwdinv="enable"/></option><option')),
  ("energy", 'option', '', lambda s: s.replace("<option", '<option><flag energy="enable"/></option><option')),
  ("multiccd-off", 'option', '', lambda s: s.replace("<option", '<option><flag multiccd="disable"/></option><option')),
  ("actuatorgroup-disable", 'option', ' actuatorgroupdisable="0"', None),
  ("jnt-actuatorfrcrange", 'joint name="j1"', ' actuatorfrclimited="true" actuatorfrcrange="-0.2 0.2"', None),
  ("jnt-actuatorgravcomp", 'joint name="j1"', ' actuatorgravcomp="true"', lambda s: s.replace('<body name="a"', '<body name="a" gravcomp="1"')),
  ("flag-gravity-off", 'option', '', lambda s: s.replace("<option", '<option><flag gravity="disable"/></option><option')),
  ("flag-contact-off", 'option', '', lambda s: s.replace("<option", '<option><flag contact="disable"/></option><option')),
  ("flag-clampctrl-off", 'motor name="m1"', ' ctrllimited="true" ctrlrange="-.2 .2"', lambda s: s.replace("<option", '<option><flag clampctrl="disable"/></option><option')),
  ("flag-actuation-off", 'option', '', lambda s: s.replace("<option", '<option><flag actuation="disable"/></option><option')),
  ("flag-spring-damper-off", 'joint name="j2"', ' stiffness="30" damping="1"', lambda s: s.replace("<option", '<option><flag spring="disable" damper="disable"/></option><option')),
  ("flag-equality-limit-off", 'joint name="j2"', ' limited="true"', lambda s: s.replace("<option", '<option><flag equality="disable" limit="disable" frictionloss="disable"/></option><option')),
  ("flag-midphase-off", 'option', '', lambda s: s.replace("<option", '<option><flag midphase="disable"/></option><option')),
  ("flag-island-off", 'option', '', lambda s: s.replace("<option", '<option><flag island="disable"/></option><option')),
  ("flag-refsafe-off", 'geom name="g3"', ' solref="0.001 1"', lambda s: s.replace("<option", '<option><flag refsafe="disable"/></option><option')),
  ("flag-invdiscrete", 'option', '', lambda s: s.replace("<option", '<option><flag invdiscrete="enable"/></option><option')),
  ("muscle-actuator", 'motor name="m1"', '', lambda s: s.replace('<motor name="m1" joint="j1"/>', '<muscle name="m1" joint="j1" range="0.5 1.2" force="10"/>').replace('name="j1" type="hinge"', 'name="j1" type="hinge" range="-1 1"')),
  ("adhesion-actuator", 'motor name="m1"', '', lambda s: s.replace('<motor name="m1" joint="j1"/>', '<adhesion name="m1" body="c" ctrlrange="0 1" gain="5"/>')),
  ("site-transmission-refsite", 'motor name="m1"', '', lambda s: s.replace('<motor name="m1" joint="j1"/>', '<general name="m1" site="s1" refsite="s2" gear="1 0 0 0 1 0"/>')),
  ("slidercrank", 'motor name="m1"', '', lambda s: s.replace('<motor name="m1" joint="j1"/>', '<general name="m1" cranksite="s1" slidersite="s2" cranklength="0.6"/>')),
  ("tendon-actuator-limited", 'motor name="m1"', '', lambda s: s.replace('<motor name="m1" joint="j1"/>', '<motor name="m1" tendon="t2" gear="2"/>').replace('<spatial name="t2"', '<spatial name="t2" actuatorfrclimited="true" actuatorfrcrange="-.1 .1"')),
  ("mocap-weld", 'option', '', lambda s: s.replace("<worldbody>", '<worldbody><body name="mc" mocap="true" pos="1 0 .2"/>').replace("<equality>", '<equality><weld body1="mc" body2="c" solref="0.02 1"/>')),
  ("sensor-cutoff-noise", 'jointpos joint="j1"', ' cutoff="0.1" noise="0.1"', None),
  ("solimp-solref-negative", 'geom name="g3"', ' solref="-1000 -50" solimp="0.8 0.95 0.01 0.3 3"', None),
  ("frictionloss-tendon", 'fixed name="t1"', ' frictionloss="0.3" limited="true" range="-.1 .2" margin="0.05"', None),
]


def _oracle_features(acc, rng, nfeat):
  """a feature either makes put_model raise or one forward pass agrees with mj_forward"""
  import mujoco
  import mujoco_warp as mjw
  first = [k for k, f in enumerate(FEATURES) if f[0] == "actuatorgroup-disable"]    # regression case (repaired in 7358257): must be rejected now
  order = first + [int(k) for k in rng.permutation(len(FEATURES)) if int(k) not in first][: max(0, nfeat - len(first))]
  for k in order:
    name, anchor, attrs, post = FEATURES[k]
    xml = BASE_FEATURE_XML.replace("<" + anchor, "<" + anchor + attrs, 1)
    if post:
      xml = post(xml)
    try:
      mjm = mujoco.MjModel.from_xml_string(xml)
    except Exception as e:
      acc.hit("feature:mjcf-rejected:" + name)
      continue
    mjd = mujoco.MjData(mjm)
    mjd.qpos[0], mjd.qpos[1] = 0.3, 0.1
    mjd.qvel[:] = 0.5 * rng.normal(size=mjm.nv)
    mjd.ctrl[:] = 1.0
    mujoco.mj_forward(mjm, mjd)
    acc.evals += 1
    try:
      with warnings.catch_warnings():
        warnings.simplefilter("ignore")
        m = mjw.put_model(mjm)
    except (NotImplementedError, ValueError) as e:
      acc.hit("feature:rejected:" + name)
      continue
    acc.hit("feature:accepted:" + name)
    d = mjw.put_data(mjm, mjd, nworld=1, nconmax=20, njmax=60)
    d.qacc_warmstart.zero_()
    mjw.forward(m, d)
    qacc = d.qacc.numpy()[0].astype(np.float64)
    scale = 1 + np.abs(mjd.qacc).max()
    if not np.allclose(qacc, mjd.qacc, rtol=5e-3, atol=5e-3 * scale) or not np.allclose(d.sensordata.numpy()[0], mjd.sensordata, rtol=1e-3, atol=1e-4):
      acc.find(f"put_model accepts feature '{name}' but one forward pass differs from mj_forward (max |d qacc| {np.abs(qacc - mjd.qacc).max():.3g}, scale {scale:.3g})",
               "io.put_model", "feature-silently-wrong:" + name, xml=xml, feature=name)


def _oracle_put_model_fields(acc, mjm, m, xml):
  """every Model field that has MuJoCo's name and a compatible shape equals the MjModel's"""
  import dataclasses
  from mujoco_warp._src import types
  bad = []
  for f in dataclasses.fields(types.Model):
    if not hasattr(mjm, f.name):
      continue
    a, b = getattr(m, f.name), getattr(mjm, f.name)
    if isinstance(b, (int, float, np.integer, np.floating)):
      if isinstance(a, (int, float, np.integer, np.floating)) and a != b:
        bad.append(f.name)
      continue
    if not hasattr(a, "numpy") or not isinstance(b, np.ndarray):
      acc.hit("model-field:not-array")
      continue
    an = a.numpy()
    spec = getattr(f.type, "shape", ())
    if spec and spec[0] == "*":
      if an.shape[0] != 1:
        acc.hit("model-field:batched>1")
        continue
      an = an[0]
    if an.size != b.size:
      acc.hit("model-field:layout-differs:" + f.name)
      continue
    acc.hit("model-field:compared")
    if b.dtype.kind == "f":
      ok = np.allclose(an.reshape(-1).astype(np.float64), b.reshape(-1), rtol=2e-6, atol=1e-30)
    else:
      ok = np.array_equal(an.reshape(-1).astype(np.int64), b.reshape(-1).astype(np.int64))
    if not ok:
      bad.append(f.name)
  if bad:
    acc.find(f"put_model: Model fields {bad[:8]} differ from the MjModel's fields of the same name", "io.put_model", "model-field", xml=xml, fields=bad[:12])


# ------------------------------------------------------------------------------------------------ driver
def _run(ctx, nscenes, nfuzz, nfeat, with_lean=True):
  import mujoco
  import mujoco_warp as mjw
  rng = np.random.default_rng(ctx.seed * 1000 + 31)
  acc = Acc()
  dis = []
  lean = None
  corr = {"put": 0, "get": 0, "get_err": 0, "fuzz": 0}
  if with_lean:
    try:
      lean = LeanIo()
      if lean.ask("put 1 1 1 1 1 0 0") is None:
        raise RuntimeError("no answer")
    except Exception as e:
      dis.append({"what": f"Lean driver for Mjw.IoOrder.proto unavailable: {e}"})
      lean = None
  fields = _written_fields()
  acc.hit(f"get_data_into-written-fields:{len(fields)}")
  try:
    for c in range(nscenes):
      xml, meta = _scene(rng, gap_prob=(0.15 if c % 3 == 0 else 0.0), wide=(c == 1))
      if c == 0:   # regression case, runs first: the excluded-contact scene that exposed the defect repaired in e4120b4
        xml = ('<mujoco><worldbody><geom type="plane" size="3 3 .1"/><body pos="0 0 .25"><freejoint/><geom size=".1" margin="0.1" gap="0.08"/></body>'
               '<body pos="1 0 .09"><freejoint/><geom size=".1"/></body><body pos="0 0 1"><joint type="hinge" limited="true" range="-1 -0.5"/><geom size=".05"/></body></worldbody></mujoco>')
        meta = {"cone": "pyramidal", "jac": "dense", "gap": 1, "kinds": "witness"}
      try:
        mjm = mujoco.MjModel.from_xml_string(xml)
      except Exception:
        acc.hit("mjcf-rejected")
        continue
      mjd = mujoco.MjData(mjm)
      _state(rng, mjm, mjd)
      try:
        with warnings.catch_warnings():
          warnings.simplefilter("ignore")
          m = mjw.put_model(mjm)
      except (NotImplementedError, ValueError) as e:
        acc.hit("put_model-rejected:" + type(e).__name__)
        continue
      _oracle_put_model_fields(acc, mjm, m, xml)
      nworld = int(rng.integers(1, 4))
      slack_c, slack_j = int(rng.integers(0, 4)), int(rng.integers(0, 5))
      ref = copy.copy(mjd)
      d = mjw.put_data(mjm, mjd, nworld=nworld, naconmax=nworld * mjd.ncon + slack_c, njmax=mjd.nefc + slack_j)
      excluded = bool(mjd.ncon and (mjd.contact.efc_address < 0).any())
      acc.evals += 1
      acc.distinct.add((c, meta["cone"], meta["jac"], nworld, int(mjd.ncon), int(mjd.nefc)))
      acc.hit(f"cone:{meta['cone']}")
      acc.hit("sparse" if m.is_sparse else "dense")
      acc.hit(f"nworld:{nworld}")
      acc.hit("excluded-contact-scene" if excluded else ("contacts" if mjd.ncon else "no-contacts"))
      acc.hit(f"ne>0:{int(mjd.ne > 0)} nf>0:{int(mjd.nf > 0)} nl>0:{int(mjd.nl > 0)}")
      if meta.get("distsensor"):
        acc.hit("geom-distance-sensor")
      acc.sample({"ncon": int(mjd.ncon), "nefc": int(mjd.nefc), "ne/nf/nl": [int(mjd.ne), int(mjd.nf), int(mjd.nl)], "nworld": nworld, "cone": meta["cone"], "dims": mjd.contact.dim.tolist()})
      what = {"scene": c, "nworld": nworld}
      if lean:
        corr["put"] += _corr_put(lean, mjm, ref, d, nworld, dis, what)
      # (iii) round trip, every world
      for w in range(nworld):
        if lean:
          st, res = _corr_get(lean, mjw, mjm, d, w, dis, dict(what, world=w, stage="after put_data"))
          corr["get"] += 1
        else:
          res = mujoco.MjData(mjm)
          try:
            mjw.get_data_into(res, mjm, d, world_id=w)
          except (IndexError, ValueError, TypeError):
            res = None
        if res is None:
          acc.find(f"get_data_into(put_data(mjd, nworld={nworld}), world {w}) raised", "io.get_data_into", "roundtrip-raises", xml=xml, world=w, nworld=nworld)
          continue
        _oracle_roundtrip(acc, mjm, ref, res, w, nworld, xml, meta, fields)
      # after a warp forward pass on make_data worlds (arrival order of contacts / rows)
      d2 = mjw.put_data(mjm, ref, nworld=nworld, nconmax=int(mjd.ncon) + 8, njmax=int(mjd.nefc) + 12)
      mjw.forward(m, d2)
      if (d2.nacon.numpy()[0] > d2.naconmax) or (d2.nefc.numpy() > d2.njmax).any():
        acc.hit("after-forward:overflow-skipped")
      else:
        for w in range(nworld):
          if lean:
            st, res = _corr_get(lean, mjw, mjm, d2, w, dis, dict(what, world=w, stage="after forward"))
            corr["get"] += 1
          else:
            res = mujoco.MjData(mjm)
            try:
              mjw.get_data_into(res, mjm, d2, world_id=w)
            except (IndexError, ValueError, TypeError):
              res = None
          if res is None:
            acc.find(f"get_data_into after mjw.forward raised (world {w})", "io.get_data_into", "export-raises", xml=xml, world=w)
            continue
          _oracle_after_forward(acc, mjm, ref, res, d2, w, xml)
      # fuzzed integer inputs: model <-> code only
      if lean:
        for k in range(nfuzz):
          d3 = mjw.put_data(mjm, ref, nworld=nworld, naconmax=nworld * mjd.ncon + slack_c + 1, njmax=mjd.nefc + slack_j + 1)
          _fuzz_device(rng, d3)
          w = int(rng.integers(0, nworld))
          st, _ = _corr_get(lean, mjw, mjm, d3, w, dis, dict(what, world=w, stage=f"fuzz {k}"))
          corr["fuzz"] += 1
          corr["get_err"] += int(st == "err")
    _oracle_put_model_rejects(acc)
    _oracle_features(acc, rng, nfeat)
    _oracle_flex_roundtrip(acc, rng, mjw, mujoco)
  finally:
    if lean:
      lean.close()
  return acc, dis, corr


RULE = ("random scenes: plane + 1-4 free bodies (sphere / horizontal capsule / box, condim 1/3/4/6) resting, inside the margin, in the margin..margin+gap zone (excluded contacts, every third scene) or far; "
        "optional limited hinge + slide arm with friction loss, joint/connect/weld equalities, limited fixed tendon with friction loss, actuators, sensors; both cones; dense/sparse/auto Jacobian; random "
        "qvel/ctrl/time; nworld 1-3; tight random capacities. Per scene: put_model fields vs MjModel; put_data vs Lean `put`; get_data_into vs Lean `get` for every world after put_data and after "
        "mjw.forward; round trip of every field get_data_into writes (names scanned from its source); consistency of the export after mjw.forward; fuzzed address tables / counts (model<->code incl. "
        "IndexError/ValueError paths). Once per run: every unsupported value of the enum tables scanned from put_model must raise; feature sweep vs mj_forward. distinct = (scene, cone, jacobian, nworld, ncon, nefc)")


def correspondence(ctx):
  acc, dis, corr = _run(ctx, 24 if ctx.thorough else 6, 12 if ctx.thorough else 4, len(FEATURES) if ctx.thorough else 8)
  r = result(acc, RULE, extra={"model_vs_code": corr})
  r["evaluations"] += corr["put"] + corr["get"] + corr["fuzz"]
  r["disagreements"] += dis
  return r


def search(ctx, breaks):
  acc, dis, corr = _run(ctx, 40, 0, len(FEATURES), with_lean=False)
  return search_result(acc, "MjData after mj_forward (round trip), MuJoCo's efc_address/efc_id invariants (after forward), mj_forward (features)")
