"""Thread-order hook (no change to /repo): Warp's CPU back end runs the tasks of a launch in ascending order
from a C++ template string.  `install()` replaces that loop — in THIS process, before any kernel is compiled —
by one that maps the loop counter through a bijection of [0, n) selected at launch time by the environment
variable MJW_SCHED:
    "id" (default) | "rev" | "rot:<k>" (i -> (i + k) mod n) | "aff:<a>:<b>" (i -> (a*i + b) mod n, gcd(a,n) forced to 1
    by falling back to a = 1 when it is not) .
A separate kernel cache directory is used because Warp's module hash does not cover the template.
This realises "all serial orderings of the tasks of every kernel launch" (sampled); it does not realise
interleavings inside a task or GPU memory-model effects.
"""
import os

_INSTALLED = False


def install(cache_dir):
  global _INSTALLED
  import warp as wp
  import warp._src.codegen as cg
  if _INSTALLED:
    return
  old = """    for (size_t task_index = 0; task_index < dim->size; ++task_index)
    {{
        {name}_cpu_kernel_forward(*dim, task_index, _wp_args);
    }}"""
  new = """    {{
      const char* mjw_s = getenv("MJW_SCHED");
      size_t mjw_n = dim->size;
      int mjw_mode = 0; size_t mjw_a = 1, mjw_b = 0;
      if (mjw_s && mjw_s[0] == 'r' && mjw_s[1] == 'e') mjw_mode = 1;
      else if (mjw_s && mjw_s[0] == 'r' && mjw_s[1] == 'o') {{ mjw_mode = 2; mjw_b = (size_t)atoi(mjw_s + 4); }}
      else if (mjw_s && mjw_s[0] == 'a') {{
        mjw_mode = 2; mjw_a = (size_t)atoi(mjw_s + 4);
        const char* p = mjw_s + 4; while (*p && *p != ':') ++p; if (*p == ':') mjw_b = (size_t)atoi(p + 1);
        if (mjw_a == 0) mjw_a = 1;
        size_t x = mjw_a, y = mjw_n; while (y) {{ size_t t = x % y; x = y; y = t; }}
        if (x != 1) mjw_a = 1;
      }}
      for (size_t mjw_k = 0; mjw_k < mjw_n; ++mjw_k)
      {{
          size_t task_index = mjw_k;
          if (mjw_mode == 1) task_index = mjw_n - 1 - mjw_k;
          else if (mjw_mode == 2) task_index = (mjw_a * mjw_k + mjw_b) % mjw_n;
          {name}_cpu_kernel_forward(*dim, task_index, _wp_args);
      }}
    }}"""
  if old not in cg.cpu_module_template_forward:
    raise RuntimeError("Warp CPU launch template changed; thread-order hook not applicable")
  cg.cpu_module_template_forward = cg.cpu_module_template_forward.replace(old, new)
  cg.cpu_module_header = cg.cpu_module_header + '\nextern "C" char* getenv(const char*);\nextern "C" int atoi(const char*);\n'
  os.makedirs(cache_dir, exist_ok=True)
  wp.config.kernel_cache_dir = cache_dir
  _INSTALLED = True


def set_order(spec):
  os.environ["MJW_SCHED"] = spec
